exec(open('p3.py').read().split("fails = collections")[0])
def rnd_score2(rel=True, nch=2, absn=True, acc=True):
    chords=[]
    for i in range(nch):
        c = rnd_chord()
        parts={}
        for p in ['piano__0','violin__0']:
            mel = None
            for j in range(random.randint(1,4)):
                while True:
                    n = rnd_note(rel)
                    if i==0 and j==0 and (n.is_relative or n.type in 'rl'): continue
                    if not absn and n.type=='a': continue
                    if not acc and (n.accident or n.mode): continue
                    break
                mel += n
            parts[p]=mel
        D = max(m.duration for m in parts.values())
        from musiclang import Silence
        parts = {k: (m + Silence(D-m.duration) if m.duration<D else m) for k,m in parts.items()}
        chords.append(c(**parts))
    return Score(chords)
import sys
for cfg in [dict(rel=True,absn=True,acc=True), dict(rel=False,absn=False,acc=False), dict(rel=True,absn=False,acc=False)]:
    fails = collections.defaultdict(list)
    for it in range(400):
        s = rnd_score2(**cfg)
        try: base = sound(s)
        except Exception as e:
            fails['render'].append((str(s), repr(e))); continue
        for name, f in ops.items():
            try:
                t = f(s)
                so = sound(t)
                if sorted((int(e[0]),e[1],e[2]) for e in so)!=sorted((int(e[0]),e[1],e[2]) for e in base):
                    fails[name].append((str(s), base, so))
            except Exception as e:
                fails[name+':EXC:'+type(e).__name__].append((str(s), repr(e)))
    print('#################', cfg)
    for k,v in fails.items():
        print('=====', k, len(v))
        v.sort(key=lambda x: len(x[0]))
        print(v[0][0].replace('\n',' ')); print(v[0][1:])
