from musiclang import Chord, Tonality
from musiclang.analyze.roman_parser import analyze_one_chord
MAJ=[0,2,4,5,7,9,11]; MINH=[0,2,3,5,7,8,11]
def triad(q): return {'M':[0,4,7],'m':[0,3,7],'o':[0,3,6],'+':[0,4,8]}[q]
def seventh(q): return {'M7':[0,4,7,11],'7':[0,4,7,10],'m7':[0,3,7,10],'ø7':[0,3,6,10],'o7':[0,3,6,9],'mM7':[0,3,7,11],'+M7':[0,4,8,11]}[q]
major = [('I',0,'M','M7'),('ii',1,'m','m7'),('iii',2,'m','m7'),('IV',3,'M','M7'),('V',4,'M','7'),('vi',5,'m','m7'),('viio',6,'o','ø7')]
minor = [('i',0,'m','mM7'),('iio',1,'o','ø7'),('III+',2,'+','+M7'),('iv',3,'m','m7'),('V',4,'M','7'),('VI',5,'M','M7'),('viio',6,'o','o7')]
bad=0
for mode,figs,scale in (('major',major,MAJ),('minor',minor,MINH)):
    for key in range(12):
        for fig,deg,q,q7 in figs:
            root=(key+scale[deg])%12
            for inv,ext in enumerate(['','6','64']):
                exp=sorted((root+i)%12 for i in triad(q)); bass=(root+triad(q)[inv])%12
                try:
                    d,e,k,m=analyze_one_chord(fig+ext,key,mode); c=Chord(d,tonality=Tonality(k,m))[e]
                    got=sorted(p%12 for p in c.chord_extension_pitches); gb=c.bass_pitch%12
                    if got!=exp or gb!=bass: bad+=1; print('TRIAD',mode,key,fig+ext,(d,e,k,m),got,exp,gb,bass)
                except Exception as ex: bad+=1; print('EXC',mode,key,fig+ext,repr(ex))
            for inv,ext in enumerate(['7','65','43','2']):
                f = fig+ext
                if fig=='viio' and mode=='major': f='viiø'+ext
                if fig=='iio': f='iiø'+ext
                exp=sorted((root+i)%12 for i in seventh(q7)); bass=(root+seventh(q7)[inv])%12
                try:
                    d,e,k,m=analyze_one_chord(f,key,mode); c=Chord(d,tonality=Tonality(k,m))[e]
                    got=sorted(p%12 for p in c.chord_extension_pitches); gb=c.bass_pitch%12
                    if got!=exp or gb!=bass: bad+=1; print('SEV',mode,key,f,(d,e,k,m),got,exp,gb,bass) if key==0 else None
                except Exception as ex: bad+=1; print('EXC',mode,key,f,repr(ex)) if key==0 else None
print('bad',bad)
