from musiclang.library import *
from musiclang import Score, Chord, Tonality, Note, Melody
from musiclang.write.out import get_notes
import itertools, collections, random
from fractions import Fraction as F
def sound(score):
    if isinstance(score, Chord): score = Score([score])
    notes = get_notes(score)
    # merge continuations per track
    out = {}
    res = []
    last = {}
    for n in notes:
        p, off, dur, vel, tr, sil, cont, tempo, pedal = n
        if cont:
            if tr in last and last[tr] is not None:
                last[tr][2] += dur
            continue
        ev = [p, off, dur, vel, tr, sil]
        last[tr] = ev
        res.append(ev)
    return sorted([tuple(e[:5]) for e in res if not e[5]], key=lambda e:(e[4], e[1]))
random.seed(1)
modes = ['M','m','mm','dorian','phrygian','lydian','mixolydian','aeolian','locrian']
exts = ['', '6','64','7','65','43','2','9','11','13', '(sus2)', '6(sus4)', '65[add9]']
def rnd_chord():
    return Chord(random.randrange(7), extension=random.choice(exts), tonality=Tonality(random.randrange(12), random.choice(modes), random.randint(-1,1)), octave=random.randint(-1,1))
def rnd_note(rel=True):
    t = random.choice(['s','h','c','b','a'] + (['su','sd','hu','hd','cu','cd','bu','bd'] if rel else []) + ['r','l'])
    if t in 'rl':
        n = Note(t,0,0,1)
        from musiclang import Silence, Continuation
        n = Silence(1) if t=='r' else Continuation(1)
    else:
        mx = {'s':7,'h':12,'c':4,'b':4,'a':12}[t[0]]
        n = Note(t, random.randrange(mx), random.randint(-1,1), 1)
        if t=='s' and random.random()<0.3: n = getattr(n, random.choice(['min','maj','dim','aug','natural']))
        if t in ('s',) and random.random()<0.2: n = getattr(n, random.choice(modes))
    return n.set_duration(random.choice([F(1),F(1,2),F(3,2),F(1,3), F(2)]))
def rnd_score(rel=True, nch=2, equal=True):
    chords=[]
    for i in range(nch):
        c = rnd_chord()
        parts={}
        for p in ['piano__0','violin__0']:
            mel = None
            for j in range(random.randint(1,4)): mel += rnd_note(rel)
            parts[p]=mel
        if equal:
            D = max(m.duration for m in parts.values())
            from musiclang import Silence
            parts = {k: (m + Silence(D-m.duration) if m.duration<D else m) for k,m in parts.items()}
        chords.append(c(**parts))
    return Score(chords)
ops = {
 'to_absolute_note': lambda s: s.to_absolute_note(),
 'to_scale_note': lambda s: s.to_scale_note(),
 'to_standard_note': lambda s: s.to_standard_note(),
 'to_chord_note': lambda s: s.to_chord_note(),
 'to_extension_note': lambda s: s.to_extension_note(),
 'decompose_duration': lambda s: s.decompose_duration(),
 'normalize_instruments': lambda s: s.normalize_instruments(),
 'normalize_instrument_names': lambda s: s.normalize_instrument_names(),
 'correct_chord_octave': lambda s: s.correct_chord_octave(),
 'split4': lambda s: s.split_too_long_chords(2),
 'normalize': lambda s: s.normalize(),
}
fails = collections.defaultdict(list)
for it in range(300):
    s = rnd_score(rel=(it%2==0))
    try: base = sound(s)
    except Exception as e:
        fails['render'].append((str(s), repr(e))); continue
    for name, f in ops.items():
        try:
            t = f(s)
            so = sound(t)
            if [e[:4] for e in so] != [e[:4] for e in base] and sorted(e[:3] for e in so)!=sorted(e[:3] for e in base):
                fails[name].append((str(s), base, so))
        except Exception as e:
            fails[name+':EXC:'+type(e).__name__].append((str(s), repr(e)))
for k,v in fails.items():
    print('=====', k, len(v))
    print(v[0][0].replace('\n',' ')); print(v[0][1:])
