exec(open('p3.py').read().split("ops = {")[0])
def window(ev, a, b):
    out=[]
    for (p,off,dur,vel,tr) in ev:
        if a <= off < b:
            out.append((int(p), off-a, min(off+dur, b)-off, vel, tr))
    return sorted(out, key=lambda e:(e[4],e[1]))
fails = collections.defaultdict(list)
for it in range(600):
    s = rnd_score(False, nch=random.randint(1,3))
    tot = s.duration
    den = random.choice([1,2,3,6])
    a = F(random.randint(0, int(tot*den)), den); b = a + F(random.randint(1, int(tot*den)+2), den)
    if a >= tot: continue
    try:
        base = sound(s)
        w = s.get_score_between(a, b)
        exp_d = min(b, tot)-a
        if w is None: fails['none'].append((str(s),a,b)); continue
        if isinstance(w, Chord): w = Score([w])
        if w.duration != exp_d: fails['dur'].append((str(s),a,b,w.duration,exp_d))
        got = [(int(p),o,d,v,t) for (p,o,d,v,t) in sound(w)]
        exp = window(base,a,b)
        # track idx may differ; compare ignoring track idx mapping by name? use same order
        if got != exp: fails['window'].append((str(s),a,b,got,exp, str(w)))
        # rejoin
        t = a
        if 0 < t < tot:
            j = s.get_score_between(0,t) + s.get_score_between(t, tot)
            if j.duration != tot: fails['rejoin-dur'].append((str(s),t))
            if [(int(p),o,d,v,tr) for (p,o,d,v,tr) in sound(j)] != [(int(p),o,d,v,tr) for (p,o,d,v,tr) in base]: fails['rejoin'].append((str(s),t, sound(j), base))
        D = F(random.randint(1,30), random.choice([1,2,3]))
        r_ = s.repeat_until_duration(D)
        if r_.duration != D: fails['repeat'].append((str(s), D, r_.duration))
    except Exception as e:
        import traceback
        fails['exc-'+type(e).__name__].append((str(s),a,b,traceback.format_exc()[-300:]))
for k,v in fails.items():
    print('=====', k, len(v)); v.sort(key=lambda x: len(x[0])); print(*[str(x).replace('\n',' ') for x in v[0]], sep='\n  ')
