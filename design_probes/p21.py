exec(open('p3.py').read().split("ops = {")[0])
from musiclang.library import *
from musiclang import Silence, Continuation
from musiclang.transform.library import create_counterpoint_on_score
fails=collections.defaultdict(list)
def rn():
    t=random.choice(['s','s','s','h','r','l'])
    if t=='r': n=Silence(1)
    elif t=='l': n=Continuation(1)
    else: n=Note(t, random.randrange(7 if t=='s' else 12), random.randint(-1,1),1)
    return n.set_duration(random.choice([F(1),F(1,2),F(3,2),F(2)]))
def rs(nch):
    chords=[]
    for i in range(nch):
        c=rnd_chord(); parts={}
        for p in ['piano__0','violin__0','cello__0'][:random.randint(2,3)]:
            mel=None
            for j in range(random.randint(1,4)): mel+=rn()
            parts[p]=mel
        D=max(m.duration for m in parts.values())
        parts={k:(m+Silence(D-m.duration) if m.duration<D else m) for k,m in parts.items()}
        chords.append(c(**parts))
    return Score(chords)
for it in range(200):
    sc=rs(random.randint(1,3))
    try:
        out=create_counterpoint_on_score(sc, fixed_parts=['piano__0'])
        a=sorted((o,d,tr) for (p,o,d,v,tr) in sound(sc)); b=sorted((o,d,tr) for (p,o,d,v,tr) in sound(out))
        if a!=b: fails['cp rhythm'].append((str(sc),str(out),a,b))
        if [c.to_code() for c in out.chords]!=[c.to_code() for c in sc.chords]: fails['cp chords'].append((str(sc),str(out)))
        if sorted(out.instruments)!=sorted(sc.instruments): fails['cp parts'].append((str(sc),str(out)))
        f0=[e for e in sound(sc) if e[4]==0]; f1=[e for e in sound(out) if e[4]==sound and 0 or e[4]==out.instruments.index('piano__0')]
        if [(int(p),o,d) for p,o,d,v,t in f0]!=[(int(p),o,d) for p,o,d,v,t in f1]: fails['cp fixed pitches'].append((str(sc),str(out)))
        # kinds: s stays s; h?
    except Exception as e:
        import traceback; fails['cp exc '+type(e).__name__].append((str(sc), traceback.format_exc()[-400:]))
for k,v in sorted(fails.items()):
    print('=====', k, len(v)); print('    ', str(min(v,key=lambda x:len(str(x)))).replace('\n',' ')[:1200])
