from musiclang.library import *
from musiclang import Score
import musiclang.write.out.midi_utils as mu
import pandas as pd, numpy as np, mido, os, tempfile
def prepare_df_for_events(df):
    df = df.copy()
    df = df.sort_values(['TRACK', 'OFFSET'])
    df['EVENT_TYPE'] = 'NOTE_ON'
    df['INDEX'] = np.arange(len(df))
    df_copy = df.copy()
    df_copy['EVENT_TYPE'] = 'NOTE_OFF'
    df_copy['OFFSET'] = df_copy['OFFSET'] + df_copy['DURATION']
    df_events = pd.concat([df, df_copy], axis=0)
    df_events = df_events.sort_values(['TRACK', 'OFFSET', 'EVENT_TYPE'])
    d = df_events.groupby('TRACK')['OFFSET'].diff()
    df_events['DELTA'] = d.where(d.notna(), df_events['OFFSET'])
    df_events['PITCH'] = df_events['PITCH'] + 60
    return df_events[['EVENT_TYPE', 'OFFSET', 'PITCH', 'VELOCITY', 'DURATION', 'DELTA', 'TRACK', 'TEMPO', 'PEDAL']]
mu.prepare_df_for_events = prepare_df_for_events
sc = Score([(I%I.M)(piano__0=s0.h+l.h+s1, piano__1=s2.e3+s4.e3+r.e3+s2.augment(3)+l, violin__0=r+s4.o(1).f.augment(4), drums__0=bd+hh+sn+hh+bd),
            (V%II.m)(piano__0=su1+sd2.e+l.e, violin__0=l.h, flute__0=h3.q3.o(1)*3)])
d=tempfile.mkdtemp(); p=os.path.join(d,'a.mid')
sc.to_midi(p, tempo=97, time_signature=(3,4))
mid=mido.MidiFile(p)
print('tpb', mid.ticks_per_beat, 'ntracks', len(mid.tracks))
for i,tr in enumerate(mid.tracks):
    t=0; print('--- track', i)
    for m in tr:
        t+=m.time; print('  ', t, m)
