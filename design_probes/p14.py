exec(open('p3.py').read().split("ops = {")[0])
from musiclang.transform import VoiceLeading, Mask, NoteTransformer
from musiclang.library import *
import numpy as np
# normalize_instruments with relative-after-absent
sc = Score([(I%I.M)(piano__0=s0, violin__0=s4.o(1)), (I%I.M)(piano__0=s0), (I%I.M)(piano__0=s0, violin__0=su1)])
print('abs-gap before', sound(sc)); print('after norm   ', sound(sc.normalize_instruments()))
# D11: random method with fixed voice
sc2 = Score([(I%I.M)(cello__0=s0.o(-1), violin__0=s4, viola__0=s2), (V%I.M)(cello__0=s0.o(-1), violin__0=s4, viola__0=s2),(IV%I.M)(cello__0=s0.o(-1), violin__0=s4, viola__0=s2)])
for method in ['voices_and_rules','voices','rules','random']:
    chg=0
    for seed in range(20):
        out = VoiceLeading(fixed_voices=['cello__0'], seed=seed, method=method)(sc2)
        for c0,c1 in zip(sc2.chords,out.chords):
            if str(c0.score['cello__0'])!=str(c1.score['cello__0']): chg+=1
    print(method, 'fixed voice changed in', chg)
# type-mask shift: an absolute note in column j+1 of a non-fixed voice
sc3 = Score([(I%I.M)(cello__0=s0.o(-1), violin__0=s4), (V%I.M)(cello__0=s0.o(-1), violin__0=a4),(IV%I.M)(cello__0=s0.o(-1), violin__0=s2)])
chg=0
for seed in range(60):
    out = VoiceLeading(fixed_voices=['cello__0'], seed=seed)(sc3)
    if str(out.chords[1].score['violin__0'])!='a4': chg+=1; ex=str(out.chords[1].score['violin__0'])
print('absolute note changed', chg, ex if chg else '')
# reproducible
a=VoiceLeading(seed=3)(sc2); b=VoiceLeading(seed=3)(sc2); print('repro', str(a)==str(b))
# mask semantic
class Tag(NoteTransformer):
    def action(self, note, **k): return note.add_tag('X')
s = Score([(I%I.M)(piano__0=s0+s1.add_tag('b')).add_tag('a'), (V%I.M)(piano__0=s2+s3.add_tag('b'))])
def tagged(res): return [[ 'X' in n.tags for n in c.score['piano__0'].notes] for c in res.chords]
m1 = (Mask.Chord() > Mask.Has('a')) | (Mask.Note() > Mask.Has('b'))
print('or ', tagged(Tag()(s, on=m1)))
m2 = (Mask.Chord() > Mask.Has('a')) & (Mask.Note() > Mask.Has('b'))
print('and', tagged(Tag()(s, on=m2)))
m3 = ~((Mask.Chord() > Mask.Has('a')) & (Mask.Note() > Mask.Has('b')))
print('not-and', tagged(Tag()(s, on=m3)), repr(m3))
from musiclang.transform.mask import NotMask
m4 = NotMask(Mask.Chord() > Mask.Has('a'))
print('NotMask(gt)', tagged(Tag()(s, on=m4)))
m5 = Mask.Has('a')
print('unguarded', tagged(Tag()(s, on=m5)))
