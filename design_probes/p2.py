from musiclang.library import *
from musiclang import Score, Chord, Tonality, Note, Melody
from musiclang.write.library import DICT_REPLACEMENT, DICT_ADDITION, DICT_REMOVAL, ALL_REPLACEMENTS, ALL_ADDITIONS
import itertools, collections
base3 = ['', '6', '64']; base4 = ['7','65','43','2']
ch = (I % I.M)
def pcs(c): return sorted(set(p%12 for p in c.chord_extension_pitches))
bad = collections.Counter()
def test(mods):
    for fam in (base3, base4):
        try:
            root = ch[fam[0]+mods]
        except Exception as e:
            bad['invalid '+type(e).__name__]+=1; return
        for k, f in enumerate(fam):
            try:
                c = ch[f+mods]
            except Exception as e:
                bad['inv-invalid']+=1; print('INVALID inversion', f+mods, e); continue
            ep = c.chord_extension_pitches
            if pcs(c)!=pcs(root): bad['pcs']+=1; print('pcs', f+mods, ep, root.chord_extension_pitches)
            if ep != sorted(ep): bad['unsorted']+=1
            if ep[-1]-ep[0] >= 12: bad['span']+=1; print('span', f+mods, ep)
            if c.chord_pitches != root.chord_pitches: bad['chord_pitches']+=1; print('chord_pitches differ', f+mods, c.chord_pitches, root.chord_pitches)
print('keys repl', sorted(DICT_REPLACEMENT), 'ALL', sorted(ALL_REPLACEMENTS))
print('keys add', sorted(DICT_ADDITION), 'ALL', sorted(ALL_ADDITIONS))
test('')
for r in DICT_REPLACEMENT: test(f'({r})')
for a in DICT_ADDITION: test(f'[{a}]')
for r in DICT_REMOVAL: test('{'+r+'}')
print(bad)
