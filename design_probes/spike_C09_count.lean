/- Spike: index in a strictly ascending list = number of smaller elements -/
theorem count_lt_getElem (L : List Int) (h : L.Pairwise (· < ·)) (i : Nat) (hi : i < L.length) :
    (L.filter (fun y => decide (y < L[i]))).length = i := by
  induction L generalizing i with
  | nil => simp at hi
  | cons a t ih =>
    have ht : t.Pairwise (· < ·) := (List.pairwise_cons.mp h).2
    have ha : ∀ b ∈ t, a < b := (List.pairwise_cons.mp h).1
    cases i with
    | zero =>
      simp only [List.getElem_cons_zero]
      have : ∀ y ∈ (a :: t), ¬ (y < a) := by
        intro y hy
        rcases List.mem_cons.mp hy with rfl | hy
        · omega
        · have := ha y hy; omega
      rw [List.filter_eq_nil_iff.mpr (by intro y hy; simpa using this y hy)]
      rfl
    | succ j =>
      have hj : j < t.length := by simpa using hi
      have hlt : a < t[j] := ha _ (List.getElem_mem hj)
      simp only [List.getElem_cons_succ, List.filter_cons, hlt, decide_true, if_true, List.length_cons]
      rw [ih ht j hj]

/-- filter (≥ p) of an ascending list is ascending, so the same lemma applies to the suffix -/
theorem filter_ge_pairwise (L : List Int) (h : L.Pairwise (· < ·)) (p : Int) :
    (L.filter (fun y => decide (p ≤ y))).Pairwise (· < ·) :=
  h.sublist List.filter_sublist

/-- elements of L in [p, r) are exactly the first i elements of the suffix, when D[i] = r -/
theorem steps_counted (L : List Int) (h : L.Pairwise (· < ·)) (p : Int) (i : Nat)
    (hi : i < (L.filter (fun y => decide (p ≤ y))).length) :
    (L.filter (fun y => decide (p ≤ y) && decide (y < (L.filter (fun y => decide (p ≤ y)))[i]))).length = i := by
  have key := count_lt_getElem _ (filter_ge_pairwise L h p) i hi
  rw [List.filter_filter] at key
  have e : L.filter (fun y => decide (p ≤ y) && decide (y < (L.filter (fun y => decide (p ≤ y)))[i]))
         = L.filter (fun a => decide (a < (L.filter (fun y => decide (p ≤ y)))[i]) && decide (p ≤ a)) := by
    apply List.filter_congr
    intro y _
    exact Bool.and_comm _ _
  rw [e]; exact key
#print axioms steps_counted
