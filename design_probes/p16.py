from musiclang.library import *
from musiclang import Score
from musiclang.transform import Mask, NoteTransformer, MelodyTransformer
class Tag(NoteTransformer):
    def action(self, note, **k): return note.add_tag('X')
s = Score([(I%I.M)(piano__0=s0+s1.add_tag('b'), violin__0=s2+s3.add_tag('b')).add_tag('a'), (V%I.M)(piano__0=s2+s3.add_tag('b'))])
def tagged(res): return [{p:[ 'X' in n.tags for n in m.notes] for p,m in c.score.items()} for c in res.chords]
m1 = Mask.InstrumentIn(['violin__0']) | (Mask.Note() > Mask.Has('b'))
print('mel-or ', tagged(Tag()(s, on=m1)))
m2 = Mask.InstrumentIn(['violin__0']) & (Mask.Note() > Mask.Has('b'))
print('mel-and', tagged(Tag()(s, on=m2)))
m3 = ~Mask.InstrumentIn(['violin__0'])
print('not-mel', tagged(Tag()(s, on=m3)))
m4 = (~Mask.InstrumentIn(['violin__0'])) | (Mask.Chord() > Mask.Has('zzz'))
print('notmel-or-chord', tagged(Tag()(s, on=m4)))
# Score-guard
m5 = (Mask.Score() > Mask.Has('zzz')) | (Mask.Note() > Mask.Has('b'))
print('score-or', tagged(Tag()(s, on=m5)))
# applying on a chord directly
print('on chord', tagged(Score([Tag()(s.chords[0], on=m1)])))
