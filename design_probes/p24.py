from musiclang.library import *
from musiclang import Score
import music21
def voices(sc):
    m=sc.to_music21(); out=[]
    for part in m.parts:
        for v in part.recurse().getElementsByClass(music21.stream.Voice):
            out.append([('N',e.pitch.midi,float(e.offset),float(e.quarterLength),e.tie.type if e.tie else None) if isinstance(e,music21.note.Note) else ('R',float(e.offset),float(e.quarterLength)) for e in v if isinstance(e,(music21.note.Note,music21.note.Rest))])
    return out
print(voices(Score([(I%I.M)(piano__0=s0), (I%I.M)(piano__0=s0+r+s1+l)])))
print(voices(Score([(I%I.M)(piano__0=s0+s1, violin__0=s4), (I%I.M)(piano__0=s2, violin__0=s4)])))
