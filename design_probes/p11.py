exec(open('p3.py').read().split("ops = {")[0])
fails=collections.defaultdict(list)
exts3=['','6','64']; exts4=['7','65','43','2']
mx=0
for it in range(4000):
    def rc():
        return Chord(random.randrange(7), extension=random.choice(exts3+exts4), tonality=Tonality(random.randrange(12), random.choice(modes), random.randint(-1,1)), octave=random.randint(-1,1))
    a=rc(); b=rc()
    for d in (None,'up','down'):
        try:
            r=a.get_parsimonious_voice_leading(b, direction=d)
            if r.element!=b.element or r.tonality.degree!=b.tonality.degree or r.tonality.mode!=b.tonality.mode: fails['root'].append((a,b,r))
            if sorted(set(p%12 for p in r.chord_pitches))!=sorted(set(p%12 for p in b.chord_pitches)): fails['pcs'].append((a,b,r))
            diff=r.bass_pitch-a.bass_pitch
            mx=max(mx,abs(diff))
            if abs(diff)>7: fails[f'fifth d={d}'].append((a.to_code(),a.bass_pitch,b.to_code(),r.to_code(),r.bass_pitch))
            if d=='up' and diff<0: fails['dir up'].append((a.to_code(),a.bass_pitch,b.to_code(),r.to_code(),r.bass_pitch))
            if d=='down' and diff>0: fails['dir down'].append((a.to_code(),a.bass_pitch,b.to_code(),r.to_code(),r.bass_pitch))
        except Exception as e:
            import traceback; fails['exc '+type(e).__name__].append((a.to_code(),b.to_code(),traceback.format_exc()[-200:]))
print('max', mx)
for k,v in fails.items():
    print('=====', k, len(v)); print(v[0])
