from musiclang.library import *
from musiclang import Score, Chord, Tonality, Note, Melody
c5 = (I['5'] % I.M)(piano__0=s0)
c0 = Score.from_str(str(c5))
print('5 roundtrip', c5==c0, repr(c5.extension), repr(c0.extension), hash(c5)==hash(c0))
a = (I % I.M)(piano__0=s0, violin__0=s1); b=(I % I.M)(violin__0=s1, piano__0=s0)
print('part order eq', a==b, hash(a)==hash(b))
m1 = Melody([s0.f]); m2 = Melody([s0])
print('melody amp', m1==m2, hash(m1)==hash(m2), 'note', s0.f==s0, hash(s0.f)==hash(s0))
print('note accident', s2.dim==s2, hash(s2.dim)==hash(s2), 'tags', s0.add_tag('a')==s0)
t1=Tonality(12,'M',0); t2=Tonality(0,'M',1)
print('ton', t1==t2)
try: print(hash(t1)==hash(t2))
except Exception as e: print('hash exc', repr(e))
ch=(I % I.M)
tr = ch.transpose(12)
print(tr.tonality.degree)
try: print(repr(tr))
except Exception as e: print('repr exc', repr(e))
# score eq/hash
s1 = Score([a]); 
try: print('score hash', hash(s1))
except Exception as e: print('score hash exc', repr(e))
# copy of Continuation with tempo
from musiclang import Continuation, Silence
l2 = Continuation(1, tempo=100); print('cont copy tempo', l2.copy().tempo)
# to_sequence roundtrip
sc = (I % I.M)(piano__0=s0+s1.e+r.e, violin__0=h3.o(1).h) + (V['65'] % II.m.o(-1)).o(1)(piano__0=c1.h, violin__0=b2+l)
try:
    df = sc.to_sequence(); back = Score.from_sequence(df)
    print('seq rt', back==sc, str(back)==str(sc)); 
    if str(back)!=str(sc): print(back); print(sc)
except Exception as e:
    import traceback; traceback.print_exc()
