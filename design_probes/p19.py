exec(open('p3.py').read().split("ops = {")[0])
from musiclang.library import *
from musiclang.transform import VoiceLeading
fails=collections.defaultdict(list)
def rt(): return Tonality(random.randrange(12), random.choice(modes), random.randint(-2,2))
# C04 algebra
for it in range(3000):
    a,b,c=rt(),rt(),rt()
    if not ((a+b)+c == a+(b+c)): fails['assoc'].append((a,b,c))
    x=a+b
    if not (0<=x.degree<12): fails['norm'].append((a,b))
    if not (b+(a-b)==a): fails['sub'].append((a,b, b+(a-b)))
    if ((a+b)-b).abs_degree != a.abs_degree: fails['sub-abs'].append((a,b))
    ch=rnd_chord()
    l1=(ch % a) % b; l2= ch % (a+b)
    if not l1.chord_equals(l2): fails['modmod'].append((ch,a,b,l1,l2))
# pitch shift law
for it in range(400):
    s = rnd_score(True, nch=random.randint(1,3))
    # ensure first note of each part in the first chord is chord-relative non relative
    try:
        base=sound(s)
    except Exception as e:
        continue
    t=rt()
    # same mode as each chord? need all chords same mode: build score with a single mode
    mode=random.choice(modes)
    s2=Score([Chord(c.element, extension=c.extension, tonality=Tonality(c.tonality.degree, mode, c.tonality.octave), octave=c.octave, score=c.score) for c in s.chords])
    t=Tonality(t.degree, mode, t.octave)
    def has_abs(sc): return any(n.type=='a' for c in sc.chords for m in c.score.values() for n in m.notes)
    def leading_rel(sc):
        seen={}
        for c in sc.chords:
            for p in list(seen):
                if p not in c.score: seen.pop(p)
            for p,m in c.score.items():
                for n in m.notes:
                    if n.is_relative and not seen.get(p): return True
                    if n.is_note and not n.is_relative: seen[p]=True
        return False
    if has_abs(s2) or leading_rel(s2): continue
    try:
        b0=sound(s2); b1=sound(s2 % t)
        exp=[(int(p)+t.abs_degree,o,d,v,tr) for (p,o,d,v,tr) in b0]
        got=[(int(p),o,d,v,tr) for (p,o,d,v,tr) in b1]
        if exp!=got: fails['modshift'].append((str(s2),t,b0,b1))
        k=random.randint(-2,2)
        b2=sound(s2.o(k)); exp=[(int(p)+12*k,o,d,v,tr) for (p,o,d,v,tr) in b0]
        if exp!=[(int(p),o,d,v,tr) for (p,o,d,v,tr) in b2]: fails['score.o'].append((str(s2),k))
        b3=sound(Score([c.o(k) for c in s2.chords])); 
        if exp!=[(int(p),o,d,v,tr) for (p,o,d,v,tr) in b3]: fails['chord.o'].append((str(s2),k))
    except Exception as e:
        import traceback; fails['exc '+type(e).__name__].append((str(s2), traceback.format_exc()[-300:]))
# C10 set_duration / augment / decompose
for it in range(2000):
    mel=None
    for j in range(random.randint(1,5)): mel += rnd_note(False).set_duration(random.choice([F(1),F(1,2),F(1,3),F(3,4),F(2,5),F(5,4),F(7,8),F(11,8), F(2,7)]))
    D=mel.duration
    d=F(random.randint(1,16), random.choice([1,2,3,4]))
    m2=mel.set_duration(d)
    if m2.duration!=d: fails['set_duration'].append((str(mel),d,m2.duration))
    k=F(random.randint(1,9), random.randint(1,5))
    if mel.augment(k).duration!=k*D: fails['augment'].append((str(mel),k))
    dm=mel.decompose_duration()
    if dm.duration!=D: fails['decomp total'].append((str(mel),str(dm)))
    # onsets of non-continuation
    on=[t for t,n in zip(dm.get_onset_times(), dm.notes) if not (n.is_continuation and True)]
    # original onsets subset
    if [t for t,n in zip(mel.get_onset_times(), mel.notes) if not n.is_continuation] != [t for t,n in zip(dm.get_onset_times(), dm.notes) if not n.is_continuation] and not any(n.is_continuation for n in mel.notes): fails['decomp onsets'].append((str(mel),str(dm)))
    if (mel*3).duration!=3*D or (mel+mel).duration!=2*D: fails['repeat'].append(str(mel))
for k,v in sorted(fails.items()):
    print('=====', k, len(v)); print('    ', str(v[0]).replace('\n',' ')[:500])
