exec(open('p3.py').read().split("ops = {")[0])
from musiclang.library import *
from musiclang.transform import VoiceLeading
from musiclang.transform.library import create_counterpoint_on_score
import numpy as np
fails=collections.defaultdict(list)
def structure(sc):
    return [[(p,[(n.duration, n.type if n.type in 'rl' else 'n') for n in m.notes]) for p,m in c.score.items()] for c in sc.chords]
def kinds(sc):
    return [[(p,[n.type for n in m.notes]) for p,m in c.score.items()] for c in sc.chords]
def rnd_vl_score():
    nch=random.randint(2,4); parts=['cello__0','viola__0','violin__0'][:random.randint(2,3)]
    chords=[]
    for i in range(nch):
        c=Chord(random.randrange(7), extension=random.choice(['','6','64','7','65','43','2']), tonality=Tonality(random.randrange(12), random.choice(modes), random.randint(-1,1)), octave=random.randint(-1,1))
        d={}
        for p in parts:
            t=random.choice(['s','c','b','h','r','l'])
            if t=='r': n=Silence(1)
            elif t=='l': n=Continuation(1)
            else: n=Note(t, random.randrange({'s':7,'c':3,'b':3,'h':12}[t]), random.randint(-1,1), 1)
            mel = n + (s0.e + s1.e if random.random()<0.5 else r)
            d[p]=mel.set_duration(2)
        chords.append(c(**d))
    return Score(chords)
from musiclang import Silence, Continuation
for it in range(150):
    sc=rnd_vl_score()
    fixed=random.choice([[],['cello__0']])
    try:
        out=VoiceLeading(fixed_voices=fixed, seed=it, max_iter=30, max_iter_rules=20)(sc)
        if structure(out)!=structure(sc): fails['vl structure'].append((str(sc),str(out)))
        if kinds(out)!=kinds(sc): fails['vl kinds'].append((str(sc),str(out)))
        for c0,c1 in zip(sc.chords,out.chords):
            if (c0.element,c0.extension,c0.tonality.degree,c0.tonality.mode)!=(c1.element,c1.extension,c1.tonality.degree,c1.tonality.mode): fails['vl chords'].append((c0.to_code(),c1.to_code()))
            if (c0.full_octave-c1.full_octave)!=0 and c0.tonality.octave!=c1.tonality.octave: fails['vl ton-oct-changed'].append((c0.to_code(),c1.to_code()))
            if not (-6 < c1.bass_pitch <= 6): fails['vl bass'].append((c1.to_code(), c1.bass_pitch))
            for f in fixed:
                if str(c0.score[f])!=str(c1.score[f]): fails['vl fixed symbols'].append((str(c0.score[f]),str(c1.score[f])))
        # notes beyond the first of each part unchanged
        for c0,c1 in zip(sc.chords,out.chords):
            for p in c0.score:
                if str(Melody(c0.score[p].notes[1:]))!=str(Melody(c1.score[p].notes[1:])): fails['vl tail'].append((p,))
    except Exception as e:
        import traceback; fails['vl exc '+type(e).__name__].append((str(sc), traceback.format_exc()[-300:]))
# counterpoint
for it in range(100):
    sc=rnd_score(False, nch=random.randint(1,3))
    # only scale notes to be fair
    try:
        out=create_counterpoint_on_score(sc, fixed_parts=['piano__0'])
        if [[(p,[(n.duration, n.type if n.type in 'rl' else 'n') for n in m.notes]) for p,m in sorted(c.score.items())] for c in out.chords] != [[(p,[(n.duration, n.type if n.type in 'rl' else 'n') for n in m.notes]) for p,m in sorted(c.score.items())] for c in sc.chords]:
            # compare sounding rhythm instead
            a=sorted((o,d,tr) for (p,o,d,v,tr) in sound(sc)); b=sorted((o,d,tr) for (p,o,d,v,tr) in sound(out))
            if a!=b: fails['cp rhythm'].append((str(sc),str(out)))
        if [c.to_code() for c in out.chords]!=[c.to_code() for c in sc.chords]: fails['cp chords'].append((str(sc),str(out)))
        f0=[e for e in sound(sc) if e[4]==0]; f1=[e for e in sound(out) if e[4]==0]
        if [(int(p),o,d) for p,o,d,v,t in f0]!=[(int(p),o,d) for p,o,d,v,t in f1]: fails['cp fixed'].append((str(sc),str(out)))
    except Exception as e:
        import traceback; fails['cp exc '+type(e).__name__].append((str(sc), traceback.format_exc()[-400:]))
for k,v in sorted(fails.items()):
    print('=====', k, len(v)); print('    ', str(min(v,key=lambda x:len(str(x)))).replace('\n',' ')[:900])
