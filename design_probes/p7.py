exec(open('p3.py').read().split("ops = {")[0])
from musiclang.analyze.to_musiclang import infer_score_with_chords_durations
from musiclang.analyze.item import Item
# C14 parse roundtrip
bad=0
for it in range(3000):
    c = rnd_chord(); p = random.randint(-40,40)
    n = c.parse(p)
    if c.to_pitch(n)!=p or not (0<=n.val<(7 if n.type=='s' else 12)) or (n.type=='h' and (p%12) in c.scale_set): bad+=1; print('parse bad', c, p, n)
print('parse bad', bad)
# infer score
fails = collections.defaultdict(list)
def run(seed):
    random.seed(seed)
    nb = random.randint(1,4); bar = random.choice([F(4),F(3),F(2)])
    chords = [rnd_chord().set_duration(bar) for _ in range(nb)]
    bars = [(i*bar,(i+1)*bar) for i in range(nb)]
    items=[]; exp=[]
    nv = random.randint(1,2)
    for v in range(nv):
        t = F(0)
        while t < nb*bar:
            if random.random()<0.3: t += F(random.randint(1,4),2); continue
            d = F(random.randint(1,12),2)
            e = min(t+d, nb*bar)
            pitch = random.randint(40,80); vel = random.randint(1,120)
            items.append(Item('n', t, e, vel=vel, pitch=pitch, track=0, channel=0, voice=v))
            exp.append((pitch-60, t, e-t, vel, v))
            t = e
    if not items: return
    items.sort(key=lambda x:(x.start))
    try:
        sc = infer_score_with_chords_durations(items, chords, {0:'piano'}, bars)
        got = sorted([(int(p),o,d,v,tr) for (p,o,d,v,tr) in sound(sc)], key=lambda e:(e[4],e[1]))
        ex = sorted(exp, key=lambda e:(e[4],e[1]))
        # track mapping: voice v -> piano__v order of first appearance; compare as multiset ignoring track
        if sorted(e[:4] for e in got)!=sorted(e[:4] for e in ex):
            fails['sound'].append((seed, ex, got, str(sc)))
        for c in sc.chords:
            if c.duration != bar: fails['bar'].append((seed, c.duration, bar))
    except Exception as e:
        import traceback; fails['exc-'+type(e).__name__].append((seed, traceback.format_exc()[-400:]))
for seed in range(400): run(seed)
for k,v in fails.items():
    print('=====', k, len(v)); print(*[str(x).replace('\n',' ') for x in min(v, key=lambda x: len(str(x)))], sep='\n  ')
print('--------- more')
vs = sorted(fails['sound'], key=lambda x: len(str(x)))
for x in vs[:8]:
    print(x[0]); print('  exp', x[1]); print('  got', x[2]); print('  ', x[3].replace('\n',' '))
