exec(open('p3.py').read().split("ops = {")[0])
fails=collections.defaultdict(list)
def syms(s):
    out={}
    for c in s.chords:
        for p,m in c.score.items():
            for n in m.notes:
                if n.type not in 'rl': out.setdefault(p,[]).append((n.type,n.val,n.octave,n.accident,n.mode))
    return out
for it in range(300):
    src = rnd_score(False, nch=random.randint(1,3))
    tgt = rnd_score(False, nch=random.randint(1,3))
    tgt = Score([c.to_chord().set_duration(c.duration) for c in tgt.chords])
    D = min(src.duration, tgt.duration)
    for vl in (False, True):
        try:
            res = src.project_on_score(tgt, voice_leading=vl)
            base=sorted((o,min(o+d,D)-o,tr) for (p,o,d,v,tr) in sound(src) if o<D)
            got=sorted((o,d,tr) for (p,o,d,v,tr) in sound(res))
            if got!=base: fails[f'rhythm vl={vl}'].append((str(src),str(tgt),base,got,str(res)))
            if not vl:
                # symbols kept (prefix, for notes starting before D)
                a=syms(res); 
                # expected: source symbols of notes with onset < D
                exp={}
                t=0
                for c in src.chords:
                    for p,m in c.score.items():
                        tt=t
                        for n in m.notes:
                            if n.type not in 'rl' and tt<D: exp.setdefault(p,[]).append((n.type,n.val,n.octave,n.accident,n.mode))
                            tt+=n.duration
                    t+=c.duration
                if a!=exp: fails['symbols'].append((str(src),str(tgt),exp,a))
        except Exception as e:
            import traceback; fails[f'exc vl={vl} '+type(e).__name__].append((str(src), str(tgt), traceback.format_exc()[-300:]))
for k,v in fails.items():
    print('=====', k, len(v)); print(*[str(x).replace('\n',' ')[:600] for x in min(v, key=lambda x: len(str(x)))], sep='\n   ')
