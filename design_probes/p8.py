from musiclang import Score, ScoreFormatter
from fractions import Fraction as F
def show(txt):
    try:
        s = ScoreFormatter(txt).parse()
        print(repr(txt)); 
        t=0
        for c in s.chords:
            print('   ', t, c.duration, c.to_code(), c.chord_extension_pitches)
            t+=c.duration
        print('   total', s.duration, 'pickup', s.config['pickup'])
    except Exception as e:
        import traceback; print('EXC', repr(txt), traceback.format_exc()[-300:])
show("Time Signature: 4/4\nm1 C: I b3 V\nm2 IV\nm3 V7 b2 I")
show("Time Signature: 4/4\nm0 C: I b3 V\nm1 IV\nm2 V7 b2 I")
show("  Time Signature: 4/4\n  m0 C: I b3 V\n  m1 IV\n  m2 V7 b2 I")
show("Time Signature: 3/4\nm1 a: i b3 V6\nm2 iv64\nm3 V65 b2 i")
show("Time Signature: 6/8\nm1 a: i b2 V6\nm2 iv64\nm3 V65 b1.5 i")
show("Time Signature: 4/4\nm0 b4 C: V\nm1 I\nm2 V7 b2 I")
show("Time Signature: 2/2\nm1 C: I b2 V\nm2 viio7 b1.5 I")
