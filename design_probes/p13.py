from musiclang.library import *
from musiclang import Score
sc = (I % I.M)(piano__0=s0+s1.e+r.e, violin__0=h3.o(1).h) + (V['65'] % II.m.o(-1)).o(1)(piano__0=c1.h, violin__0=b2+l)
try:
    df = sc.to_sequence(); back = Score.from_sequence(df)
    print('seq rt', back==sc, str(back)==str(sc)); 
    if str(back)!=str(sc): print(back); print(sc)
except Exception as e:
    import traceback; traceback.print_exc()
