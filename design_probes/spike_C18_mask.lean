/- Spike: mask dispatch = spec, 3 levels (chord, melody, note), guarded atoms -/
inductive Lvl | chord | melody | note deriving DecidableEq, Repr
def Lvl.rank : Lvl → Nat | .chord => 0 | .melody => 1 | .note => 2

/-- masks built with public operators, negation already pushed into atoms -/
inductive Mask where
  | gt (g : Lvl) (atom : Nat) (neg : Bool)   -- guard > (¬)atom
  | frozen (b : Bool)                         -- BoolMask produced by child()
  | and (a b : Mask) | or (a b : Mask)

/-- valuation of atom i at level l (context of that level's element) -/
abbrev Val := Lvl → Nat → Bool

def Mask.call (v : Val) (l : Lvl) : Mask → Bool
  | .gt g a n => (g != l) || ((v l a) != n)      -- terms[0](el) or terms[1](el)
  | .frozen b => b
  | .and a b => a.call v l && b.call v l
  | .or a b => a.call v l || b.call v l

/-- child(element at level l): Gt freezes itself when guard matches l -/
def Mask.child (v : Val) (l : Lvl) : Mask → Mask
  | .gt g a n => if g != l then .gt g a n else .frozen (Mask.call v l (.gt g a n))
  | .frozen b => .frozen b
  | .and a b => .and (a.child v l) (b.child v l)
  | .or a b => .or (a.child v l) (b.child v l)

/-- implementation: note selected iff on(chord) ∧ child.on(melody) ∧ child.child.on(note) -/
def selectedImpl (v : Val) (m : Mask) : Bool :=
  m.call v .chord && (m.child v .chord).call v .melody &&
    ((m.child v .chord).child v .melody).call v .note

/-- spec: each guarded atom evaluated at its own level -/
def Mask.spec (v : Val) : Mask → Bool
  | .gt g a n => (v g a) != n
  | .frozen b => b
  | .and a b => a.spec v && b.spec v
  | .or a b => a.spec v || b.spec v

def Mask.noFrozen : Mask → Prop
  | .gt _ _ _ => True | .frozen _ => False | .and a b => a.noFrozen ∧ b.noFrozen | .or a b => a.noFrozen ∧ b.noFrozen

/-- monotone: value at a deeper stage implies value at an earlier one -/
theorem stage_mono (v : Val) (m : Mask) :
    (((m.child v .chord).child v .melody).call v .note = true →
       (m.child v .chord).call v .melody = true) ∧
    ((m.child v .chord).call v .melody = true → m.call v .chord = true) := by
  induction m with
  | gt g a n => cases g <;> simp [Mask.child, Mask.call]
  | frozen b => simp [Mask.child, Mask.call]
  | and a b iha ihb =>
      simp only [Mask.child, Mask.call, Bool.and_eq_true]
      exact ⟨fun h => ⟨iha.1 h.1, ihb.1 h.2⟩, fun h => ⟨iha.2 h.1, ihb.2 h.2⟩⟩
  | or a b iha ihb =>
      simp only [Mask.child, Mask.call, Bool.or_eq_true]
      exact ⟨fun h => h.elim (fun h => Or.inl (iha.1 h)) (fun h => Or.inr (ihb.1 h)),
             fun h => h.elim (fun h => Or.inl (iha.2 h)) (fun h => Or.inr (ihb.2 h))⟩

theorem final_eq_spec (v : Val) (m : Mask) (h : m.noFrozen) :
    ((m.child v .chord).child v .melody).call v .note = m.spec v := by
  induction m with
  | gt g a n => cases g <;> simp [Mask.child, Mask.call, Mask.spec]
  | frozen b => exact absurd h (by simp [Mask.noFrozen])
  | and a b iha ihb => simp [Mask.child, Mask.call, Mask.spec, iha h.1, ihb h.2]
  | or a b iha ihb => simp [Mask.child, Mask.call, Mask.spec, iha h.1, ihb h.2]

theorem dispatch_eq_spec (v : Val) (m : Mask) (h : m.noFrozen) :
    selectedImpl v m = m.spec v := by
  have hm := stage_mono v m
  have hf := final_eq_spec v m h
  unfold selectedImpl
  cases hs : m.spec v
  · rw [hs] at hf; simp [hf]
  · rw [hs] at hf
    have h2 := hm.1 hf
    have h1 := hm.2 h2
    simp [h1, h2, hf]
#print axioms dispatch_eq_spec
