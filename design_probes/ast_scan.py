import ast, sys, collections
files = """musiclang/write/note.py musiclang/write/melody.py musiclang/write/chord.py musiclang/write/score.py musiclang/write/tonality.py musiclang/write/custom_chord.py musiclang/write/element.py musiclang/write/time_utils/time_utils.py musiclang/transform/composing/voice_leading.py musiclang/transform/composing/patternator.py musiclang/transform/melody/continuation.py musiclang/analyze/pattern_analyzer.py musiclang/analyze/to_musiclang.py musiclang/transform/composing/project.py musiclang/transform/composing/counterpoint.py musiclang/write/ornementation.py musiclang/write/rhythm/metric.py musiclang/transform/base_transformer.py musiclang/transform/transformer.py musiclang/transform/note/basics.py musiclang/transform/melody/basics.py musiclang/transform/chord/basics.py musiclang/write/properties/note_properties.py""".split()
MUT = {'append','add','update','pop','remove','insert','sort','extend','clear','discard','setdefault','reverse','popitem'}
def root(n):
    while isinstance(n,(ast.Attribute,ast.Subscript)): n=n.value
    if isinstance(n, ast.Name): return n.id
    if isinstance(n, ast.Call): return 'CALL'
    return type(n).__name__
tot=collections.Counter()
for f in files:
    src=open('/repo/'+f).read(); tree=ast.parse(src)
    for fn in [n for n in ast.walk(tree) if isinstance(n,(ast.FunctionDef,))]:
        params={a.arg for a in fn.args.args+fn.args.kwonlyargs}
        if fn.args.vararg: params.add(fn.args.vararg.arg)
        if fn.args.kwarg: params.add(fn.args.kwarg.arg)
        # local bindings: name -> list of value exprs
        binds=collections.defaultdict(list)
        for n in ast.walk(fn):
            if isinstance(n, ast.Assign):
                for t in n.targets:
                    if isinstance(t, ast.Name): binds[t.id].append(n.value)
            if isinstance(n,(ast.For,)) and isinstance(n.target, ast.Name): binds[n.target.id].append(('ITER', n.iter))
        for n in ast.walk(fn):
            tgts=[]
            if isinstance(n, ast.Assign): tgts=[t for t in n.targets if isinstance(t,(ast.Attribute,ast.Subscript))]
            elif isinstance(n, ast.AugAssign) and isinstance(n.target,(ast.Attribute,ast.Subscript)): tgts=[n.target]
            elif isinstance(n, ast.AugAssign) and isinstance(n.target, ast.Name): tgts=[]  # x += ... on name (could be list +=)
            elif isinstance(n, ast.Delete): tgts=[t for t in n.targets if isinstance(t,(ast.Attribute,ast.Subscript))]
            elif isinstance(n, ast.Call) and isinstance(n.func, ast.Attribute) and n.func.attr in MUT: tgts=[n.func.value]
            for t in tgts:
                r=root(t)
                if fn.name in ('__init__','__setstate__') and r=='self': continue
                kind = 'self' if r=='self' else ('param' if r in params else 'local')
                tot[kind]+=1
                if kind!='local':
                    print(f"{f}:{n.lineno} {fn.name}: {kind} {ast.unparse(n)[:90]}")
print(tot)
