exec(open('p3.py').read().split("ops = {")[0])
from musiclang.library import *
from musiclang import Silence, Continuation
import musiclang.library as L
fails=collections.defaultdict(list)
# ---- C16
tags=['accent','mordant','inv_mordant','chroma_mordant','inv_chroma_mordant','grupetto','inv_grupetto','chroma_grupetto','inv_chroma_grupetto','roll','roll_fast','suspension_prev','suspension_prev_repeat','retarded','interpolate']
from musiclang.write.constants import STR_TO_DURATION
durs=[d for k,d in STR_TO_DURATION.items() if d!=0]+[F(5,4),F(7,3),F(1,12),F(3),F(1,24),F(11,8)]
ctxs=[None, s3, s1.o(1), r, l, h5]
for t in tags:
    for d in durs:
        for ln in ctxs:
            for nn in ctxs:
                for base in (s0, h3.o(-1)):
                    n=base.set_duration(d).add_tag(t)
                    try:
                        out=n.realize_tags(last_note=ln, next_note=nn)
                        ds=[x.duration for x in (out.notes if hasattr(out,'notes') and not isinstance(out,type(s0)) else [out])]
                        if sum(ds)!=d: fails['C16 sum '+t].append((str(n),str(out)))
                        if any(x<0 for x in ds): fails['C16 neg '+t].append((str(n),d,str(out)))
                    except Exception as e:
                        fails['C16 exc '+t+' '+type(e).__name__].append((str(n),d,str(ln),str(nn),repr(e)[:80]))
# tag pairs
import itertools
for t1,t2 in itertools.combinations(tags,2):
    for d in [F(1),F(2),F(1,2),F(3,2)]:
        n=s0.set_duration(d).add_tag(t1).add_tag(t2)
        try:
            out=n.realize_tags(last_note=s1, next_note=s4)
            ds=[x.duration for x in (out.notes if hasattr(out,'notes') else [out])]
            if sum(ds)!=d or any(x<0 for x in ds): fails['C16 pair bad'].append((t1,t2,d,str(out)))
        except Exception as e:
            fails['C16 pair exc '+type(e).__name__].append((t1,t2,str(d),repr(e)[:100]))
for k,v in sorted(fails.items()):
    print('=====', k, len(v)); print('    ', v[0])
print('------ pairs exc')
c=collections.Counter((a,b,e) for a,b,d,e in fails['C16 pair exc TypeError'])
for k,v in sorted(c.items()): print(k,v)
print('------ pairs bad')
for x in fails['C16 pair bad']: print(x)
c2=collections.Counter((d) for n,d,o in fails['C16 neg retarded']); print(sorted(c2))
c3=collections.Counter((d) for n,d,o in fails['C16 neg grupetto']); print(sorted(c3))
c4=collections.Counter((d) for n,d,a,b,e in fails['C16 exc roll TypeError']); print('roll',sorted(c4))
c4=collections.Counter((d) for n,d,a,b,e in fails['C16 exc roll_fast TypeError']); print('roll_fast',sorted(c4))
