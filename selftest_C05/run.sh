#!/bin/sh
# usage: run.sh <mutant-name>...   (applies to the scratch repo, runs the check, replays on mutant and on clean, reverts)
cd /var/tmp/ws-C05/verif
export VERIF_REPO=/var/tmp/ws-C05/repo
D=/var/tmp/ws-C05/verif/selftest_C05
for m in "$@"; do
  (cd $VERIF_REPO && /venv/bin/python $D/apply.py $m >/dev/null && git diff > $D/$m.diff)
  s=$(date +%s); ./check C05 > $D/$m.out 2>&1; rc=$?; e=$(date +%s)
  echo "== $m rc=$rc t=$((e-s))s"
  grep -h "^VIOLATION\|^OK" $D/$m.out | cut -c1-160
  r=$(grep -h "^VIOLATION" $D/$m.out | grep -v no-failing | sed 's/.*replay=\([^ ]*\).*/\1/' | head -1)
  if [ -n "$r" ]; then
    cp $r $D/$m.replay.json
    echo "  replay on mutant:"; ./check C05 --replay $r 2>&1 | grep -v conda | head -3 | cut -c1-230 | sed 's/^/    /'
    (cd $VERIF_REPO && git checkout -- .)
    echo "  replay on clean:"; ./check C05 --replay $r 2>&1 | grep -v conda | head -2 | cut -c1-200 | sed 's/^/    /'
  fi
  (cd $VERIF_REPO && git checkout -- .)
done
