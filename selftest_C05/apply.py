import sys
M = {
 'M1-relative-octave-method': ('musiclang/write/note.py', "            if not self.is_relative:\n                result += f\".o({self.octave})\"", "            if self.is_relative:\n                result += f\".o({self.octave})\""),
 'M2-negative-octave-dropped': ('musiclang/write/note.py', "        if self.octave != 0 and (self.is_note or self.type == 'x'):", "        if self.octave > 0 and (self.is_note or self.type == 'x'):"),
 'M3-single-tag-dropped': ('musiclang/write/note.py', "        if len(self.tags) > 0:\n            result += f\".add_tags({self.tags})\"", "        if len(self.tags) > 1:\n            result += f\".add_tags({self.tags})\""),
 'M4-degree-name-cell': ('musiclang/write/constants.py', None, None),
 'M5-augment-resolution-100': ('musiclang/write/note.py', "        result.duration *= value\n        result.duration = result.duration.limit_denominator(LIMIT_DENOM)", "        result.duration *= value\n        result.duration = result.duration.limit_denominator(100)"),
 'M6-dataframe-denominator-4': ('musiclang/write/sequence/sequence.py', "limit_denominator(8)", "limit_denominator(4)"),
 'M7-silence-copy-drops-tags': ('musiclang/write/note.py', "        return Silence(self.duration, tempo=self.tempo, pedal=self.pedal, tags=set(self.tags))", "        return Silence(self.duration, tempo=self.tempo, pedal=self.pedal)"),
 'M8-accidental-dropped-for-relative': ('musiclang/write/note.py', "        if self.accident is not None and self.type not in ('r', 'l'):", "        if self.accident is not None and self.type not in ('r', 'l') and not self.is_relative:"),
 'M9-tonality-octave-sign': ('musiclang/write/tonality.py', "        if self.octave != 0:\n            result += f\".o({self.octave})\"", "        if self.octave != 0:\n            result += f\".o({abs(self.octave)})\""),
 'M10-chord-call-part-index': ('musiclang/write/chord.py', "                named_melodies_result[key_obj + '__' + str(number)] = mel", "                named_melodies_result[key_obj + '__' + str(number % 10)] = mel"),
 'M12-amp-zero-written-n': ('musiclang/write/note.py', '                result += ".set_amp(0)"  # `.n` is the rhythmic suffix n (0 quarters)', '                result += ".n"'),
 'M13-split-lookahead-only-I': ('musiclang/write/score.py', "(?=[(IV])", "(?=[(I])"),
 'M11-pickle-state-drops-accident': ('musiclang/write/note.py', "    def __getstate__(self):\n        return self.__dict__\n\n    def __setstate__(self, d):\n        self.__dict__ = d\n\n    def __getattr__", "    def __getstate__(self):\n        return {k: v for k, v in self.__dict__.items() if k != 'accident'}\n\n    def __setstate__(self, d):\n        self.__dict__ = d\n        self.__dict__.setdefault('accident', None)\n\n    def __getattr__"),
}
name = sys.argv[1]
path, old, new = M[name]
s = open(path).read()
if name == 'M4-degree-name-cell':
    import re
    i = s.index('DEGREE_TO_STR')
    seg = s[i:i+600]
    assert '"VI.b"' in seg or "'VI.b'" in seg, seg
    seg2 = seg.replace('"VI.b"', '"VI"', 1).replace("'VI.b'", "'VI'", 1)
    s = s[:i] + seg2 + s[i+600:]
else:
    assert s.count(old) == 1, (name, s.count(old))
    s = s.replace(old, new)
open(path, 'w').write(s)
print('applied', name)
