#!/venv/bin/python
"""Hand-made mutants for C10 (not a registered check).  usage: mutants.py <repo> [name...]
Applies each mutant to the scratch repo copy, runs ./check C10, prints the verdict, replays the replay file on the
mutant and on the clean tree, reverts with `git checkout -- .`."""
import sys, os, subprocess, re, json
REPO = sys.argv[1]
VERIF = os.path.dirname(os.path.dirname(os.path.abspath(__file__)))
M = {
 'M1-table-cell-e3': ('musiclang/write/constants.py', '"e3": frac(2) / frac(6),', '"e3": frac(2) / frac(5),'),
 'M2-float-in-table-q3': ('musiclang/write/constants.py', '"q3": frac(2) / frac(3),', '"q3": 2 / 3,'),
 'M3-decompose-fixup-index': ('musiclang/write/note.py',
        'result.notes[0] = result.notes[-1].copy().augment(dur / result.notes[-1].duration)',
        'result.notes[0] = result.notes[-1].copy().augment(dur / result.notes[0].duration)'),
 'M4-chord-duration-min': ('musiclang/write/chord.py',
        'return max([self.score[key].duration for key in self.score.keys()])',
        'return min([self.score[key].duration for key in self.score.keys()])'),
 'M5-set-duration-inverted-ratio': ('musiclang/write/melody.py', 'return self.augment(duration / self.duration)',
        'return self.augment(self.duration / duration)'),
 'M6-limit-denom-100': ('musiclang/write/note.py', 'LIMIT_DENOM = int(1e3)', 'LIMIT_DENOM = int(1e2)'),
 'M7-suffix-assigns': ('musiclang/write/note.py', 'note.duration *= STR_TO_DURATION[item]', 'note.duration = STR_TO_DURATION[item]'),
 'M8-augment-float-division': ('musiclang/write/note.py', '        result.duration *= value\n',
        '        result.duration = frac(result.duration.numerator * value.numerator / (result.duration.denominator * value.denominator))\n'),
 'M9-melody-mul-off-by-one': ('musiclang/write/melody.py', 'return Melody(melody_copy.notes * other,',
        'return Melody(melody_copy.notes * max(other, 1),'),
 'M10-score-duration-drops-last': ('musiclang/write/score.py', 'return sum([c.duration for c in self.chords])',
        'return sum([c.duration for c in self.chords[:-1]], self.chords[-1].duration if len(self.chords) == 1 else 0)'),
}
names = sys.argv[2:] or list(M)
env = dict(os.environ, VERIF_REPO=REPO)
clean_env = dict(os.environ, VERIF_REPO=REPO)
for name in names:
    path, old, new = M[name]
    full = os.path.join(REPO, path)
    src = open(full).read()
    assert src.count(old) == 1, (name, src.count(old))
    open(full, 'w').write(src.replace(old, new))
    try:
        p = subprocess.run(['./check', 'C10'], cwd=VERIF, env=env, capture_output=True, text=True)
        out = p.stdout + p.stderr
        viol = [l for l in out.split('\n') if l.startswith('VIOLATION')]
        print(f'== {name}: exit={p.returncode} ' + ('; '.join(viol) if viol else out[-300:]))
        rep = []
        for v in viol[:3]:
            m = re.search(r'replay=(\S+)', v)
            if not m:
                continue
            r1 = subprocess.run(['./check', 'C10', '--replay', m.group(1)], cwd=VERIF, env=env, capture_output=True, text=True)
            rep.append((m.group(1), 'mutant: ' + r1.stdout.strip().split('\n')[0][:200]))
        subprocess.run(['git', '-C', REPO, 'checkout', '--', '.'], check=True)
        for path_, txt in rep:
            r2 = subprocess.run(['./check', 'C10', '--replay', path_], cwd=VERIF, env=env, capture_output=True, text=True)
            d = json.load(open(os.path.join(VERIF, path_)))
            print('   ', d.get('signature') or d.get('kind'), '|', txt, '| clean:', r2.stdout.strip().split('\n')[0][:120])
    finally:
        subprocess.run(['git', '-C', REPO, 'checkout', '--', '.'], check=True)
