#!/bin/bash
# soak_fresh.sh [seeds...] : from a fresh snapshot (no build output): setup, then every registered quick check for the given seeds
cd "$(dirname "$0")"
[ -d lean/.lake ] || ./setup.sh >/dev/null 2>&1
seeds=${@:-6 7}
for s in $seeds; do
for p in $(python3 -c "import json; print(' '.join(c['property_id'] for c in json.load(open('MANIFEST.json'))['checks']))"); do
    t0=$(date +%s); out=$(VERIF_SEED=$s ./check $p 2>&1); rc=$?; t1=$(date +%s)
    echo "$p seed=$s rc=$rc $((t1-t0))s $(echo "$out" | grep -v '^KNOWN-FINDING' | tail -1 | cut -c1-200)"
done; done
