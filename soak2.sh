#!/bin/bash
# soak2.sh "<props>" "<seeds>"
for p in $1; do for s in $2; do out=$(VERIF_SEED=$s ./check $p 2>&1); rc=$?; if [ $rc -ne 0 ]; then echo "== $p seed=$s rc=$rc"; echo "$out" | grep -v "^KNOWN-FINDING" | head -5 | cut -c1-300; fi; done; echo "done $p"; done
