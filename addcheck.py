#!/usr/bin/env python3
"""addcheck.py Cxx "<level text>" "<level note>" [technique] — register a property in MANIFEST.json"""
import json, sys
pid, text, note = sys.argv[1:4]
tech = sys.argv[4] if len(sys.argv) > 4 else 'Lean 4 proof over a functional model + generated tables + differential correspondence'
m = json.load(open('MANIFEST.json'))
m['checks'] = [c for c in m['checks'] if c['property_id'] != pid]
m['checks'].append({
    'property_id': pid, 'quick_cmd': f'./check {pid} --tier quick', 'thorough_cmd': f'./check {pid} --tier thorough',
    'evidence_file': f'evidence/{pid}.json', 'replay_cmd_template': f'./check {pid} --replay {{path}}', 'engine': 'lean-mv',
    'level_claimed': {'category': 'proof', 'text': text, 'design_ref': f'DESIGN.md §5 {pid}'},
    'level_note': note, 'technique': tech})
m['checks'].sort(key=lambda c: c['property_id'])
m['not_applicable'] = [n for n in m.get('not_applicable', []) if n['property_id'] != pid]
for e in m['engines']:
    e['serves_properties'] = sorted(c['property_id'] for c in m['checks'])
json.dump(m, open('MANIFEST.json', 'w'), indent=1)
print('registered', pid, '->', [c['property_id'] for c in m['checks']])
